"""Generators of field specs, schema specs and candidate values (labelled by vf.model)."""
from . import model
from .common import weighted
import ipaddress

from .jsonx import DigestSpec, Opaque, StrSub

REGEXES = [
    ("^[a-z]+$", ["abc", "z"], ["ab1", "", "A", "abc\n"]),
    ("[0-9]{3}", ["123", "1234x"], ["12", "a123", ""]),
    ("^(foo|bar)$", ["foo", "bar"], ["foobar", "fo", " foo"]),
    ("[A-Z][a-z]*\\Z", ["Hello", "H"], ["hello", "Hello\n", "HELLO"]),
    ("a.c", ["abc", "a-cd"], ["ac", "xabc", "a\nc"]),
]
KEYWORDS = {"def", "class", "if", "in", "is", "or", "as", "not", "and", "for", "del", "try", "from", "with", "pass",
            "None", "True", "False", "item", "type", "self", "cfg", "key", "env", "name"}
KEYPOOL = ["alpha", "beta", "gamma", "delta", "eps", "zeta", "eta", "theta", "iota", "kappa", "lam", "mu", "nu", "xi",
           "omi", "pi", "rho", "sigma", "tau", "ups", "phi", "chi", "psi", "omega", "a1", "b2", "c3", "d4", "x_y",
           "under_score", "CamelCase", "UPPER", "z9", "q", "w", "port2", "host2", "mode2", "lvl", "db", "http", "auth",
           # names that coincide with document-level names of the formats (XML root tags, YAML root keys, XML item tags)
           "config", "cfg", "k0", "item"]
import collections as _collections
import types as _types

# mappings that are not dicts (an untyped dict field stores what it accepts as it is)
NOT_A_DICT = [_collections.UserDict({"k": "v"}), _collections.ChainMap({"a": 1}, {"b": 2}), _collections.UserDict()]
WILD = NOT_A_DICT + [None, True, False, 0, 1, -1, 2, 1.5, 0.0, float("nan"), float("inf"), "", "x", " ", "1", "true", "abc", b"", b"xy",
        [], [1], ["a"], {}, {"a": 1}, (1, 2), (), Opaque(), 10**30, 2**31, -2**63, "tk00aa", 1e300, [None], {"a": None}]
SCALAR_FAMILIES = ["str", "loglevel", "appmode", "int", "float", "port", "bool", "ipv4", "net", "host", "url", "file",
                   "bytes", "secure", "challenge", "any"]
ALGS = list(model.ALGS)


# model environment at generation time: "$FX" stands for the sandbox fixture directory
GEN_ENV = {"root": "$", "cwd": "$CWD", "paths": {"$FX": "dir", "$FX/file.txt": "file", "$FX/dir": "dir",
                                                  "$FX/dir/inner.txt": "file", "$CWD/fx": "dir", "$CWD/fx/file.txt": "file",
                                                  "$CWD/fx/dir": "dir", "$CWD/fx/dir/inner.txt": "file", "$CWD": "dir"}}


def pick_keys(rng, n, avoid=()):
    pool = [k for k in KEYPOOL if k not in avoid]
    rng.shuffle(pool)
    return pool[:n]


# ------------------------------------------------------------------------------------------------
# field specs


def gen_params(rng, fam, allow_k5=False, boundary=True):
    p = {}
    if rng.random() < 0.25:
        p["required"] = True
    if fam == "str":
        if rng.random() < 0.4:
            p["min_len"] = rng.choice([0, 1, 2, 3])
        if rng.random() < 0.4:
            p["max_len"] = rng.choice([0, 1, 3, 5, 8])
            if p.get("min_len") is not None and p["max_len"] < p["min_len"] and rng.random() < 0.9:
                p["max_len"] = p["min_len"] + rng.choice([0, 1, 4])
        if rng.random() < 0.4:
            p["transform_case"] = rng.choice(["lower", "upper", "LOWER", "Upper"])
        if rng.random() < 0.45:
            strips = [True, True, True, " ", "-_", "\t\n ", "."]
            if allow_k5 or not p.get("transform_case"):
                strips += ["xX", "aB"]
            p["transform_strip"] = rng.choice(strips)
        r = rng.random()
        if r < 0.25:
            p["regex"] = rng.choice(REGEXES)[0]
        elif r < 0.5:
            ch = rng.sample(["red", "green", "blue", "Red", "a", "", "x y", "long-choice"], rng.randrange(1, 5))
            if p.get("transform_case") and rng.random() < 0.7:
                low = p["transform_case"].lower() == "lower"
                ch = [c.lower() if low else c.upper() for c in ch]
            p["choices"] = ch
    elif fam == "loglevel":
        if rng.random() < 0.3:
            p["levels"] = rng.choice([["low", "high"], ["trace", "debug", "info"], ["a", "b", "c", "d", "e", "f", "g"]])
        if rng.random() < 0.15:
            p["transform_case"] = "upper"
            p["levels"] = ["LOW", "HIGH"]
    elif fam == "appmode":
        if rng.random() < 0.3:
            p["modes"] = rng.choice([["dev", "prod"], ["a", "b", "c"], ["test_1", "stage"]])
        p["create_helpers"] = False
    elif fam in ("int", "port"):
        pool = [-5, 0, 1, 10, 2**31, -2**31, 65535, 100]
        if fam == "int":
            pool += [0.5, 2.5, -0.5, -2.5, 0.5, 1024.5, -0.5, 99.9]  # bounds need not be integers
        if rng.random() < (0.6 if fam == "int" else 0.2):
            p["min"] = rng.choice(pool)
        if rng.random() < (0.6 if fam == "int" else 0.2):
            p["max"] = rng.choice(pool)
            if p.get("min") is not None and p["max"] < p["min"] and rng.random() < 0.9:
                p["max"] = p["min"] + rng.choice([0, 1, 100])
    elif fam == "float":
        pool = [-1.5, 0.0, 0.5, 10.0, 1e6, -1e6, 1, 0]
        if rng.random() < 0.6:
            p["min"] = rng.choice(pool)
        if rng.random() < 0.6:
            p["max"] = rng.choice(pool)
            if p.get("min") is not None and p["max"] < p["min"] and rng.random() < 0.9:
                p["max"] = p["min"] + rng.choice([0, 0.5, 100])
    elif fam == "net":
        pool = [0, 1, 8, 16, 24, 31, 32]
        if rng.random() < 0.6:
            p["min_prefix_len"] = rng.choice(pool)
        if rng.random() < 0.6:
            p["max_prefix_len"] = rng.choice(pool)
    elif fam == "host":
        if rng.random() < 0.5:
            p["allow_ipv4"] = rng.random() < 0.5
    elif fam == "file":
        p["exists"] = rng.choice([None, None, True, False, "dir", "file"])
        if rng.random() < 0.6:
            p["startdir"] = rng.choice(["$FX", "$FX", "fx", "fx/dir", "$FX/dir"])
    elif fam == "bytes":
        p["encoding"] = rng.choice(["base64", "hex"])
    elif fam == "secure":
        p["method"] = rng.choice(["aes", "xor", "best"])
    elif fam == "challenge":
        p["hash_algorithm"] = rng.choice(ALGS)
    if fam in ("ipv4", "net", "host", "url") and rng.random() < 0.2:
        p["transform_strip"] = True
    return p


def gen_field(rng, fam=None, depth=1, families=None, allow_k5=False, cfg_items=False):
    """A field node (without key)."""
    fams = families or (SCALAR_FAMILIES + ["list", "list", "dict", "dict"])
    fam = fam or rng.choice(fams)
    if depth <= 0 and fam in ("list", "dict"):
        fam = rng.choice([f for f in SCALAR_FAMILIES if f in fams] or ["str"])
    node = {"kind": "field", "family": fam, "params": gen_params(rng, fam, allow_k5)}
    if fam == "list":
        r = rng.random()
        if r < 0.12:
            node["item"] = None
        else:
            inner = [f for f in fams if f not in ("appmode",)]
            node["item"] = gen_field(rng, None, depth - 1, inner, allow_k5)
            if rng.random() < 0.7 or node["item"]["family"] == "any":
                # (ListField(AnyField(required=True)) validates as untyped but wraps its default: not generated)
                node["item"]["params"].pop("required", None)
    elif fam == "dict":
        r = rng.random()
        if r < 0.12:
            node["keyf"] = node["valf"] = None
        else:
            kfam = rng.choice(["str", "str", "loglevel", "int", "host", "bytes"]) if rng.random() < 0.85 else None
            node["keyf"] = gen_field(rng, kfam, 0, None, allow_k5) if kfam else None
            if node["keyf"]:
                node["keyf"]["params"].pop("required", None)
            inner = [f for f in fams if f not in ("appmode",)]
            node["valf"] = gen_field(rng, None, depth - 1, inner, allow_k5) if rng.random() < 0.85 else None
            if node["keyf"] is None and node["valf"] is None:
                node["valf"] = gen_field(rng, "int", 0)
    return node


# ------------------------------------------------------------------------------------------------
# candidate values


def _str_pool(rng, f):
    p = model._str_params(f)
    out = ["", " ", "abc", "ABC", "MiXed", "\u00e9", "\u00df", "a\n", "  ab  ", "--ab__", "x", "xabX", "a b", ".a.", "\tq\n",
           # padding by whitespace that is not ASCII (str.strip() without argument removes it, a character list does not)
           "\u00a0ab\u00a0", "\u3000", "\x85ab", "ab\x1f", "\u2003 ab \u2028", "\u00a0", "a\u00a0b",
           # text that looks like an escape of some document format
           "First_x0020_Name", "a_x000A_b", "&#65;", "%41", "\\n",
           # line ends of other platforms, inside and at the end
           "l1\r\nl2", "\r\n", "x\r", "l1\rl2\n"]
    for c in (p.get("choices") or []):
        out += [c, c.upper(), c.lower(), " " + c + " ", c + "x", "-" + c + "_", "\u00a0" + c + "\u3000", c + "\x85"]
    if p.get("regex"):
        for rx, good, bad in REGEXES:
            if rx == p["regex"]:
                out += good + bad + [g.upper() for g in good] + [" " + g for g in good]
    for b in (p.get("min_len"), p.get("max_len")):
        if b is not None:
            for k in (b - 1, b, b + 1):
                if k >= 0:
                    out += ["a" * k, " " * 2 + "b" * k + " ", "Z" * k]
    # text of a subclass of str (an enumeration member, a labelled string): every sixth candidate also comes in that form
    out += [StrSub(x) for x in out[::6]]
    return out


def _num_pool(rng, f):
    p = f.get("params", {})
    out = [0, 1, -1, 7, 65535, 65536, 2**31, 10**30, 2573, 3338, 168626701, 0.0, 1.5, -0.5, 2.999, -2.999, float("nan"), float("inf"), float("-inf"),
           "0", "12", " 12 ", "+5", "-0", "1.5", "1e3", ".5", "5.", "abc", "", " ", "0x10", "12abc", "1,5", "inf", "nan",
           "-Infinity", "1e400", True, False, "\n3\n", "--1", "+", "1 2", "00012", "-7"]
    lo, hi = p.get("min"), p.get("max")
    if f["family"] == "port":
        lo = 1 if "min" not in p else lo
        hi = 65535 if "max" not in p else hi
    for b in (lo, hi):
        if b is not None:
            out += [b, b - 1, b + 1, b - 0.5, b + 0.5, float(b), str(b), str(b - 1), str(b + 1), " %s " % b,
                    b - 1e-9, b + 1e-9, "%s.0" % int(b)]
    return out


BOOL_POOL = ["t", "true", "1", "on", "yes", "y", "f", "false", "0", "off", "no", "n", "T", "TRUE", "On", "YES", "False",
             "OFF", " true", "true ", "2", "yess", "", "tru", "nope", "01", 0, 1, 2, -1, 0.0, -1.5, 1e-9, float("nan"),
             True, False, "\u0131", "ye\u017f", "fal\u017fe", "o\ufb00", "\u212a", "YE\u017f", "tr\u016be", "\uff54rue", "of\ufb00"]
IPV4_POOL = ["1.2.3.4", "0.0.0.0", "255.255.255.255", "256.1.1.1", "1.2.3", "1.2.3.4.5", "a.b.c.d", "1.2.3.4 ", " 1.2.3.4",
             "1.2.3.4\n", "", "01.2.3.4", "1.2.3.-4", "\uff11.2.3.4", "1..3.4", "127.0.0.1", "1.2.3.4/32", "10.0.0.1",
             "192.168.1.255", "1.2.3.04", "1.2.3.4.", ".1.2.3.4", "0x7f.0.0.1", "1.2.3.256",
             # address objects are not text: the field takes text only
             ipaddress.IPv4Address("192.168.100.200"), ipaddress.IPv4Address("10.0.0.1"), StrSub("10.0.0.1"), StrSub("1.2.3.256")]
NET_POOL = ["10.0.0.0/8", "10.0.0.0/255.0.0.0", "10.0.0.1/8", "0.0.0.0/0", "1.2.3.4", "1.2.3.4/32", "1.2.3.0/24",
            "1.2.3.0/33", "1.2.3.0/-1", "1.2.3.0/", "1.2.3.0/24/1", "128.0.0.0/1", "192.168.0.0/31", "192.168.0.0/16",
            "10.0.0.0/0.255.255.255", "172.16.0.0/12", "1.2.3.4/31", "255.255.255.255/32", "abc", "", "10.0.0.0/8 ",
            "10.0.0.0 /8", "10.0.0.0/08", "10.0.0.0/255.255.0.0", "10.1.0.0/255.0.0.0", "1.2.3.0/255.255.255.0",
            "256.0.0.0/8", "10.0.0.0/8\n", "0.0.0.0/1", "128.0.0.0/0", "1.2.3.128/25", "1.2.3.128/24", "10/8",
            "1.2.3.0/255.255.255.1"]
HOST_POOL = ["example.com", "a", "ab", "a-b.c", "-lead.com", "host name", "bad/host", "h" * 16 + "!", "abc\n", "1.2.3.4",
             "localhost", "UPPER.CASE", "under_score", "a" * 300, "x:y", "", "h" * 15, "h" * 16, "w_" * 8, "a..b", ".a",
             "a.", "192.168.1.1", "256.1.1.1", "1.2.3", "caf\u00e9.fr", "a b", "ab\n", "a\n", "!", "!!", "0", "~x~",
             "host_name_longer_than_15", "h@st", "h\tx", " example.com",
             # letters that only case-insensitive / case-folding comparisons take for ASCII ones
             "backup-\u017ferver.example.com", "\u212aafka-broker-01.example.net", "\u017f" * 16, "example\u212a.internal.example"]
URL_POOL = ["http://x.y/z", "https://a", "ftp://h/p?q=1#f", "mailto:a@b", "x:", "/path", "host/path", "", "://x", "http//x",
            "1http://x", "a b://x", "HTTP://UP", "file:///etc", "urn:isbn:1", "//host/path", "?q=1", "#frag", "c:\\dir",
            "http://[::1", "https://[fe80::1/metrics", "http://x]/y", "https://user:pw@][/", "ftp://h]:21/", "a+b.c-d://x", "-a://x", "http:", ":", "www.example.com", "http://x\n"]
FILE_POOL = ["$FX/file.txt", "$FX/dir", "$FX/missing", "file.txt", "dir", "missing", "dir/inner.txt", "dir/../file.txt", "",
             "./file.txt", "dir/", "$FX/dir/inner.txt", "$FX/dir/nope", "file.txt/x", "$FX", "sub/missing"]


def candidates(rng, f, n, env=None):
    """n candidate values for a field node, mixing family-specific boundary values and wild ones."""
    fam = f["family"]
    if fam in ("str", "loglevel", "appmode"):
        pool = _str_pool(rng, f)
    elif fam in ("int", "float", "port"):
        pool = _num_pool(rng, f)
    elif fam in ("bool", "flag"):
        pool = BOOL_POOL
    elif fam == "ipv4":
        pool = IPV4_POOL
    elif fam == "net":
        pool = NET_POOL
    elif fam == "host":
        pool = HOST_POOL
    elif fam == "url":
        pool = URL_POOL
    elif fam in ("file", "include"):
        pool = FILE_POOL
    elif fam == "bytes":
        pool = [b"", b"\x00\xff", b"plain", "text", "\u00e9", bytearray(b"x"), b"x" * 100, "", "YWJj", b"\x80abc",
                # text that reads like some encoding of bytes: it is text all the same
                "de:ad:be:ef", "DE-AD-BE-EF", "00:11", "deadbeef", "0xdead", "ab cd", "\\x00\\xff", "b'raw'", "aGVsbG8=",
                # bytes whose base64 text consists of hexadecimal digits only (and the other way round)
                __import__("base64").b64decode("deadbeefcafef00d"), __import__("base64").b64decode("0123456789abcdef0123456789abcdef"),
                bytes(48), bytes.fromhex("00112233445566778899aabbccddeeff"), b"QUJD", b"0123456789abcdef"]
    elif fam == "secure":
        pool = ["tk%016x" % rng.getrandbits(64), "", "pass word", "\u00e9\u4e2d", "x" * 50, "a", "p" * 16, "q" * 32, "\u00e9" * 8,
                "sixteen-bytes-ok" + chr(1), "r" * 48, "block-aligned-16"]
    elif fam == "challenge":
        _alg = f["params"].get("hash_algorithm", "sha256").lower()
        _n = __import__("hashlib").new(_alg).digest_size
        pool = ["pw", b"pw", "", b"", "\u00e9", "x" * 200, "abcd:efgh", "user:pass", ":", "QUJD:REVG", "a:b",
                # imported digests whose salt is longer / shorter than the digest
                DigestSpec(_alg, "pw", bytes(range(_n + 8)), raw=True), DigestSpec(_alg, b"\x00\x01", bytes(range(2 * _n)), raw=True),
                DigestSpec(_alg, "pw", b"s", raw=True), DigestSpec(f["params"].get("hash_algorithm", "sha256"), "pw"),
                DigestSpec(f["params"].get("hash_algorithm", "sha256"), b"\x00\x01")]
    elif fam == "any":
        pool = WILD
    elif fam == "list":
        return [_list_value(rng, f, env) for _ in range(n)]
    elif fam == "dict":
        return [_dict_value(rng, f, env) for _ in range(n)]
    else:
        pool = WILD
    out = []
    for _ in range(n):
        out.append(rng.choice(pool) if rng.random() < 0.8 else rng.choice(WILD))
    return out


def _list_value(rng, f, env):
    r = rng.random()
    if r < 0.12:
        return rng.choice(WILD)
    item = f.get("item")
    n = rng.choice([0, 1, 1, 2, 3, 5])
    if item is None:
        vals = [rng.choice(WILD) for _ in range(n)]
    elif item["kind"] == "field":
        bad = rng.random() < 0.3
        vals = []
        for _ in range(n):
            vals.append(one_value(rng, item, "any" if bad else "valid", env))
    else:
        vals = [tree_for(rng, item, env, valid=rng.random() < 0.75) for _ in range(n)]
    return tuple(vals) if rng.random() < 0.15 else vals


def _dict_value(rng, f, env):
    if rng.random() < 0.08:
        return rng.choice(NOT_A_DICT)
    if rng.random() < 0.12:
        return rng.choice(WILD)
    kf, vf = f.get("keyf"), f.get("valf")
    n = rng.choice([0, 1, 1, 2, 3])
    bad = rng.random() < 0.3
    out = {}
    for _ in range(n):
        k = one_value(rng, kf, "any" if bad and rng.random() < 0.5 else "valid", env) if kf else rng.choice(
            ["k1", "k2", "kk", "K", "a b", 5, ""])
        v = one_value(rng, vf, "any" if bad else "valid", env) if vf else rng.choice(WILD)
        try:
            out[k] = v
        except TypeError:
            out[str(k)] = v
    return out


def one_value(rng, f, want="valid", env=None, tries=12):
    """A value for field node f whose model label is `want` ('valid' / 'invalid' / 'any').
    Values of unknown status are never returned for 'valid'/'invalid'."""
    last = None
    for _ in range(tries):
        v = candidates(rng, f, 1, env)[0]
        if want == "any":
            return v
        ok, _n = model.accepts(f, v, env)
        if ok is True and want == "valid":
            return v
        if ok is False and want == "invalid":
            return v
        last = v
    if want == "valid":
        return None if not f.get("params", {}).get("required") else last
    return last


def tree_for(rng, schema_node, env=None, valid=True, partial=0.3):
    """An on-disk tree for a schema / config-type node."""
    out = {}
    for ch in model.stored_children(schema_node):
        req = ch.get("params", {}).get("required") if ch["kind"] == "field" else False
        if not req and rng.random() < partial:
            continue
        if ch["kind"] in ("schema", "ctype"):
            out[ch["key"]] = tree_for(rng, ch, env, valid, partial)
            continue
        if ch["family"] == "include":
            continue
        want = "valid" if valid or rng.random() < 0.6 else "invalid"
        v = one_value(rng, ch, want, env)
        ok, disk = disk_form(ch, v, env)
        if ok:
            out[ch["key"]] = disk
    return out


def disk_form(f, v, env=None):
    """On-disk form of a python value for the tree/document routes (the plaintext for secrets and
    challenge fields, encoded text for bytes)."""
    fam = f["family"]
    if v is None:
        return True, None
    if fam == "bytes":
        if isinstance(v, str):
            v = v.encode()
        if isinstance(v, (bytes, bytearray)):
            return model.to_basic(f, bytes(v))
        return True, v
    if fam == "challenge":
        if isinstance(v, DigestSpec):
            return True, v.secret if isinstance(v.secret, str) else "pw"
        if isinstance(v, bytes):
            try:
                return True, v.decode()
            except UnicodeDecodeError:
                return True, "pw"
        return True, v
    if fam == "list" and isinstance(v, (list, tuple)):
        item = f.get("item")
        if item is not None and item["kind"] == "field":
            out = []
            for x in v:
                ok, y = disk_form(item, x, env)
                out.append(y)
            return True, out
        return True, list(v)
    if fam == "dict" and isinstance(v, dict):
        kf, vf = f.get("keyf"), f.get("valf")
        out = {}
        for k, x in v.items():
            kk = disk_form(kf, k, env)[1] if kf else k
            xx = disk_form(vf, x, env)[1] if vf else x
            try:
                out[kk] = xx
            except TypeError:
                return False, None
        return True, out
    return True, v


# ------------------------------------------------------------------------------------------------
# schema specs


def gen_schema(rng, depth=2, width=4, families=None, lists_of_cfg=True, ctypes=True, dynamic=0.1, defaults=0.5,
               env=None, avoid=(), _counter=None, allow_k5=False):
    """A schema node: fields with unique keys, nested schemas, config types, lists of schemas."""
    _counter = _counter if _counter is not None else [0]
    n = rng.randrange(1, width + 1)
    keys = pick_keys(rng, n, avoid)
    node = {"kind": "schema", "key": "", "fields": [], "dynamic": rng.random() < dynamic}
    for key in keys:
        r = rng.random()
        if depth > 0 and r < 0.22:
            sub = gen_schema(rng, depth - 1, width, families, lists_of_cfg, ctypes, dynamic, defaults, env, avoid,
                             _counter, allow_k5)
            sub["key"] = key
            node["fields"].append(sub)
        elif depth > 0 and ctypes and r < 0.30:
            _counter[0] += 1
            sub = gen_schema(rng, depth - 1, width, families, lists_of_cfg, False, 0, defaults, env, avoid, _counter,
                             allow_k5)
            node["fields"].append({"kind": "ctype", "key": key, "name": "T%d" % _counter[0], "schema": sub})
        elif depth > 0 and lists_of_cfg and r < 0.40:
            _counter[0] += 1
            sub = gen_schema(rng, depth - 1, max(2, width - 1), families, False, False, 0, defaults, env, avoid,
                             _counter, allow_k5)
            item = sub if rng.random() < 0.5 else {"kind": "ctype", "key": "", "name": "I%d" % _counter[0], "schema": sub}
            node["fields"].append({"kind": "field", "key": key, "family": "list", "params": {}, "item": item})
        else:
            f = gen_field(rng, None, 1, families, allow_k5)
            f["key"] = key
            if rng.random() < defaults:
                d = normalised_default(rng, f, env)
                if d is not None:
                    f["params"]["default"] = d
                    if f["family"] == "dict" and isinstance(d, dict) and d and all(isinstance(k, str) for k in d) and rng.random() < 0.3:
                        # the same default written as a sequence of pairs (dict() takes it, so does the field)
                        f["params"]["default"] = [[k, v] for k, v in d.items()]
            node["fields"].append(f)
    return node


def normalised_default(rng, f, env=None):
    """A default that is already in normal form (the library stores declared defaults as they are)."""
    fam = f["family"]
    if fam in ("secure",):
        return rng.choice(["s3cret", "tk%016x" % rng.getrandbits(64)])
    if fam == "challenge":
        return rng.choice(["hunter2", "pw"])
    if fam == "file":
        return None
    for _ in range(10):
        v = one_value(rng, f, "valid", env)
        if v is None:
            continue
        ok, n = model.accepts(f, v, env)
        if ok is True and not isinstance(n, model.Hashed):
            if isinstance(n, float) and n != n:
                continue
            if isinstance(n, tuple):
                n = list(n)
            if fam in ("list", "dict") and not _plain_ok(n):
                continue
            return n
    return None


def _plain_ok(v):
    if isinstance(v, model.Hashed) or isinstance(v, (DigestSpec, Opaque)):
        return False
    if isinstance(v, dict):
        return all(_plain_ok(k) and _plain_ok(x) for k, x in v.items())
    if isinstance(v, (list, tuple)):
        return all(_plain_ok(x) for x in v)
    if isinstance(v, float) and v != v:
        return False
    return True
