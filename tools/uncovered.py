#!/venv/bin/python
"""tools/uncovered.py [--tier quick] [--seed 1] - which lines of the package does NO check execute?

Runs every check with VERIF_LINES_DUMP set (scratch directory, removed afterwards), unions the executed
lines and prints, per source file, the executable lines that no check reached, with their text.  An audit
aid for DESIGN section 8.2: a line no workload drives is a line no monitor can say anything about."""
import argparse
import json
import os
import shutil
import subprocess
import sys
import tempfile

HERE = os.path.dirname(os.path.dirname(os.path.abspath(__file__)))
sys.path.insert(0, HERE)
from vf.monitors import executable_lines  # noqa: E402


def main():
    ap = argparse.ArgumentParser()
    ap.add_argument("--tier", default="quick")
    ap.add_argument("--seed", default="1")
    ap.add_argument("--repo", default="/repo")
    ap.add_argument("--keep-evidence", action="store_true")
    args = ap.parse_args()
    tmp = tempfile.mkdtemp(prefix="vf-lines-")
    try:
        env = dict(os.environ, VERIF_LINES_DUMP=tmp, VERIF_SEED=args.seed)
        for i in range(1, 21):
            pid = "C%02d" % i
            subprocess.run([os.path.join(HERE, "check"), pid, "--tier", args.tier], env=env, capture_output=True)
        union, by = {}, {}
        for name in sorted(os.listdir(tmp)):
            with open(os.path.join(tmp, name)) as fp:
                d = json.load(fp)
            for fn, ls in d.items():
                union.setdefault(fn, set()).update(ls)
                for ln in ls:
                    by.setdefault((fn, ln), []).append(name[:-5])
        pkg = os.path.join(args.repo, "cincoconfig")
        tot_exec = tot_hit = 0
        for root, _dirs, files in sorted(os.walk(pkg)):
            for f in sorted(files):
                if not f.endswith(".py"):
                    continue
                path = os.path.join(root, f)
                rel = os.path.relpath(path, pkg)
                ex = executable_lines(path)
                hit = union.get(rel, set()) & ex
                tot_exec += len(ex)
                tot_hit += len(hit)
                miss = sorted(ex - hit)
                print("%-32s %4d/%4d" % (rel, len(hit), len(ex)))
                src = open(path).read().splitlines()
                for ln in miss:
                    print("      %5d  %s" % (ln, src[ln - 1].rstrip()[:110]))
        print("TOTAL %d/%d executable lines reached by at least one check" % (tot_hit, tot_exec))
    finally:
        shutil.rmtree(tmp, ignore_errors=True)


if __name__ == "__main__":
    main()
