#!/bin/sh
# tools/sweep.sh <tier> <seed>...   - run every check for each seed, print one line per run
cd "$(dirname "$0")/.." || exit 2
tier=$1; shift
for seed in "$@"; do
  for p in C01 C02 C03 C04 C05 C06 C07 C08 C09 C10 C11 C12 C13 C14 C15 C16 C17 C18 C19 C20; do
    out=$(./check $p --tier $tier --seed $seed 2>&1)
    echo "$out" | grep -E "^(C[0-9]+ (HELD|VIOLATED|INCONCLUSIVE)|VIOLATION|INCONCLUSIVE|  monitor=)" | cut -c1-400
  done
done
