#!/usr/bin/env python3
"""tools/refile.py <seeded-id> <PROP[,PROP...]> <note>  - file a seeded change under the property whose subject it breaks."""
import json, sys, os
sid, props, note = sys.argv[1], sys.argv[2].split(","), sys.argv[3]
p = os.path.join(os.path.dirname(os.path.dirname(os.path.abspath(__file__))), "seeded", sid, "meta.json")
m = json.load(open(p))
if "filed_by_author_under" not in m:
    m["filed_by_author_under"] = m["property"] if isinstance(m["property"], str) else m["property"][0]
m["property"] = props
m["note"] = note
json.dump(m, open(p, "w"), indent=1)
print(sid, "->", props)
