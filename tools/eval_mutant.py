#!/venv/bin/python
"""Confirm a seeded change produced by a sub-agent and keep it under seeded/<id>/.

  tools/eval_mutant.py <worktree>/_mutantN [--id NAME] [--tier quick]

Steps (all in a scratch copy of /repo outside /repo and /verif, removed afterwards):
  1. the patch applies to the current /repo tree;
  2. the repository's own tests still pass with it;
  3. the demonstration exits 1 with the patch and 0 without;
  4. the property's check (and any listed extra checks) is run against the patched copy.
The change is stored as seeded/<id>/{patch.diff, demo.py, meta.json} when 1-3 hold.
"""
import argparse
import json
import os
import shutil
import subprocess
import sys
import tempfile

VERIF = os.path.dirname(os.path.dirname(os.path.abspath(__file__)))


def run(cmd, **kw):
    return subprocess.run(cmd, capture_output=True, text=True, **kw)


def demo(dst, demo_path):
    home = tempfile.mkdtemp(prefix="vf-home-")
    try:
        r = run(["/venv/bin/python", demo_path], cwd=dst, timeout=300,
                env=dict(os.environ, PYTHONPATH=dst, HOME=home, PYTHONDONTWRITEBYTECODE="1"))
        return r.returncode, (r.stdout + r.stderr).strip()[-300:]
    finally:
        shutil.rmtree(home, ignore_errors=True)


def main():
    ap = argparse.ArgumentParser()
    ap.add_argument("mutant_dir")
    ap.add_argument("--id")
    ap.add_argument("--tier", default="quick")
    ap.add_argument("--also", default="", help="comma separated extra properties to run")
    ap.add_argument("--no-store", action="store_true")
    args = ap.parse_args()
    mdir = os.path.abspath(args.mutant_dir)
    with open(os.path.join(mdir, "meta.json")) as fp:
        meta = json.load(fp)
    prop = meta["property"] if isinstance(meta["property"], str) else meta["property"][0]
    tmp = tempfile.mkdtemp(prefix="vf-mutant-")
    dst = os.path.join(tmp, "repo")
    report = {"property": prop}
    try:
        shutil.copytree("/repo", dst, ignore=shutil.ignore_patterns(".git", "__pycache__", "docs", "*.pyc"))
        shutil.copy(os.path.join(mdir, "demo.py"), os.path.join(tmp, "demo.py"))
        code0, out0 = demo(dst, os.path.join(tmp, "demo.py"))
        report["demo_without_patch"] = code0
        r = run(["patch", "-p1", "-s", "-d", dst, "-i", os.path.join(mdir, "patch.diff")])
        report["patch_applies"] = r.returncode == 0
        if r.returncode != 0:
            print(json.dumps(report), (r.stdout + r.stderr)[:300])
            return 1
        t = run(["/venv/bin/python", "-m", "pytest", "-q", "-p", "no:cacheprovider", "-x",
                 "--deselect", "tests/test_schema.py::TestSchema::test_setattr_field"], cwd=dst,
                env=dict(os.environ, PYTHONPATH=dst, PYTHONDONTWRITEBYTECODE="1"))
        report["tests"] = (t.stdout.strip().splitlines() or ["?"])[-1]
        report["tests_pass"] = t.returncode == 0
        code1, out1 = demo(dst, os.path.join(tmp, "demo.py"))
        report["demo_with_patch"] = code1
        report["demo_message"] = out1[-200:]
        confirmed = report["tests_pass"] and code0 == 0 and code1 == 1
        report["confirmed"] = confirmed
        caught = {}
        for p in [prop] + [x for x in args.also.split(",") if x]:
            c = run([os.path.join(VERIF, "check"), p, "--tier", args.tier, "--repo", dst],
                    env=dict(os.environ, VERIF_REPLAY_DIR=os.path.join(tmp, "replays")))
            viol = [ln for ln in c.stdout.splitlines() if ln.startswith("  monitor=")]
            import re

            total = sum(int(m) for ln in viol for m in re.findall(r"\((\d+) recorded\)", ln))
            total += sum(int(m) for m in re.findall(r"violations_not_recorded=(\d+)", c.stdout))
            caught[p] = {"exit": c.returncode, "violating_cases": total, "kinds": len(viol),
                         "first": viol[0].strip()[:220] if viol else ""}
        report["checks"] = caught
    finally:
        shutil.rmtree(tmp, ignore_errors=True)
    print(json.dumps(report, indent=1))
    if report.get("confirmed") and not args.no_store:
        name = args.id or "%s-%s" % (prop, os.path.basename(os.path.dirname(mdir)).replace("wt-", "") + os.path.basename(mdir)[-1])
        out = os.path.join(VERIF, "seeded", name)
        os.makedirs(out, exist_ok=True)
        shutil.copy(os.path.join(mdir, "patch.diff"), os.path.join(out, "patch.diff"))
        shutil.copy(os.path.join(mdir, "demo.py"), os.path.join(out, "demo.py"))
        meta["confirmed"] = {"tests": report["tests"], "demo_without_patch": code0, "demo_with_patch": code1,
                             "ran": "tools/eval_mutant.py (scratch copy of /repo: patch applied, repository tests, demo with/without, checks)"}
        meta["checks_at_intake"] = report["checks"]
        with open(os.path.join(out, "meta.json"), "w") as fp:
            json.dump(meta, fp, indent=1)
        print("stored as seeded/%s" % name)
    return 0


if __name__ == "__main__":
    sys.exit(main())
