#!/venv/bin/python
"""Regenerate MANIFEST.json from the property modules that exist (vf/props/cXX.py)."""
import importlib
import json
import os
import sys

HERE = os.path.dirname(os.path.dirname(os.path.abspath(__file__)))
sys.path.insert(0, HERE)

BASELINE = ("cd /repo && /venv/bin/python -m pytest -ra -q -p no:cacheprovider --timeout=900 "
            "--continue-on-collection-errors")


def main():
    checks, na = [], []
    props = [json.loads(line) for line in open(os.path.join(HERE, "properties.jsonl"))]
    for rec in props:
        pid = rec["id"]
        path = os.path.join(HERE, "vf", "props", pid.lower() + ".py")
        if not os.path.exists(path):
            na.append({"property_id": pid, "reason": "check not built yet in this session (planned in DESIGN.md §3)"})
            continue
        mod = importlib.import_module("vf.props." + pid.lower())
        level = getattr(mod, "LEVEL", "exploration")
        checks.append({
            "property_id": pid,
            "quick_cmd": "./check %s --tier quick" % pid,
            "thorough_cmd": "./check %s --tier thorough" % pid,
            "evidence_file": "evidence/%s.json" % pid,
            "replay_cmd_template": "./check %s --replay {path}" % pid,
            "engine": "vf",
            "level_claimed": {
                "category": level,
                "text": getattr(mod, "LEVEL_TEXT", "held on the executions explored: " + mod.RULE)[:1500],
                "design_ref": "DESIGN.md §3 " + pid,
            },
            "level_note": "; ".join(getattr(mod, "ASSUMPTIONS", ())) or "monitors and reference model in vf/ are trusted",
            "technique": getattr(mod, "TECHNIQUE", "runtime monitoring: generated workloads on the real code, "
                                                    "oracle observing every execution"),
        })
    manifest = {
        "version": 1,
        "setup_cmd": "./check --selftest",
        "hooks": {
            "guard": "CINCOCONFIG_VERIF",
            "enable": "no source hooks: all instrumentation (sys.addaudithook, sys.monitoring, wrappers around "
                      "public callables) attaches from the harness; the guard name is reserved and unused",
            "baseline_off_cmd": BASELINE,
            "source_commits": [],
            "add_only": True,
        },
        "engines": [{
            "name": "vf",
            "path": "vf/",
            "serves_properties": [c["property_id"] for c in checks],
            "kind_free_text": "runtime-monitoring harness: seeded case generators, sandboxed worker processes that "
                              "import cincoconfig from /repo's working tree, per-property monitors/oracles, "
                              "three-valued verdicts, replay files",
        }],
        "checks": checks,
        "not_applicable": na,
        "notes": "exit 0 held / exit 1 VIOLATION / exit 2 INCONCLUSIVE (never a VIOLATION line). "
                 "Known findings: known_findings.txt. Seeded breaks: selftest/run.py.",
    }
    with open(os.path.join(HERE, "MANIFEST.json"), "w") as fp:
        json.dump(manifest, fp, indent=1)
    print("MANIFEST.json: %d checks, %d not yet built" % (len(checks), len(na)))


if __name__ == "__main__":
    main()
