mkpatch () 
{ 
    name=$1;
    rm -rf a b;
    mkdir a b;
    cp -r /repo/cincoconfig a/;
    cp -r /repo/cincoconfig b/;
    ( cd b && /venv/bin/python -c "$2" ) || { 
        echo "edit failed $name";
        return
    };
    diff -ru a b | sed -e 's#^--- a/#--- a/#' -e 's#^+++ b/#+++ b/#' > /verif/selftest/patches/$name.diff;
    [ -s /verif/selftest/patches/$name.diff ] && echo "ok $name $(wc -l < /verif/selftest/patches/$name.diff)" || echo "EMPTY $name"
}
