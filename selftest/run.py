#!/venv/bin/python
"""Run the checks against seeded breaks (DESIGN §2.7).

  selftest/run.py [--tier quick] [--with-tests] [--seed N] [name-substring ...]

Each patch under selftest/patches/ and each seeded/<id>/patch.diff is applied to a scratch copy of
/repo (outside /repo and /verif), the named property's check is run against the copy with
`--repo`, exit 1 + a VIOLATION line is expected, and the copy is removed again.  Patch names:
selftest/patches/<PROP>[+<PROP>...]-<slug>.diff.  Nothing here touches /repo or the evidence.
"""
import argparse
import glob
import json
import os
import re
import shutil
import subprocess
import sys
import tempfile

HERE = os.path.dirname(os.path.abspath(__file__))
VERIF = os.path.dirname(HERE)


def scratch_copy():
    tmp = tempfile.mkdtemp(prefix="vf-selftest-")
    dst = os.path.join(tmp, "repo")
    shutil.copytree("/repo", dst, ignore=shutil.ignore_patterns(".git", "__pycache__", "docs", "*.pyc"))
    return tmp, dst


def collect(filters):
    items = []
    for path in sorted(glob.glob(os.path.join(HERE, "patches", "*.diff"))):
        name = os.path.basename(path)[:-5]
        props = name.split("-", 1)[0].split("+")
        items.append((name, props, path))
    for meta in sorted(glob.glob(os.path.join(VERIF, "seeded", "*", "meta.json"))):
        with open(meta) as fp:
            m = json.load(fp)
        d = os.path.dirname(meta)
        props = m["property"] if isinstance(m["property"], list) else [m["property"]]
        items.append(("seeded/" + os.path.basename(d), props, os.path.join(d, "patch.diff")))
    if filters:
        items = [it for it in items if any(f in it[0] for f in filters)]
    return items


def main():
    ap = argparse.ArgumentParser()
    ap.add_argument("filters", nargs="*")
    ap.add_argument("--tier", default="quick")
    ap.add_argument("--seed", default="1")
    ap.add_argument("--with-tests", action="store_true", help="also run the repository's tests on the copy")
    ap.add_argument("--keep-going", action="store_true", default=True)
    ap.add_argument("--write-results", action="store_true", help="write selftest/RESULTS.md")
    ap.add_argument("--merge-results", action="store_true", help="update the rows of selftest/RESULTS.md for what was run, keep the others")
    args = ap.parse_args()
    failed = []
    rows = []
    for name, props, patch in collect(args.filters):
        tmp, dst = scratch_copy()
        try:
            r = subprocess.run(["patch", "-p1", "-s", "-d", dst, "-i", patch], capture_output=True, text=True)
            if r.returncode != 0:
                print("%-55s PATCH DOES NOT APPLY: %s" % (name, (r.stdout + r.stderr).strip()[:300]))
                failed.append(name)
                continue
            if args.with_tests:
                t = subprocess.run(["/venv/bin/python", "-m", "pytest", "-q", "-p", "no:cacheprovider", "-x",
                                    "--deselect", "tests/test_schema.py::TestSchema::test_setattr_field"],
                                   cwd=dst, env=dict(os.environ, PYTHONPATH=dst, PYTHONDONTWRITEBYTECODE="1"),
                                   capture_output=True, text=True)
                tail = (t.stdout.strip().splitlines() or ["?"])[-1]
                print("%-55s tests: %s" % (name, tail))
            for prop in props:
                env = dict(os.environ, VERIF_REPLAY_DIR=os.path.join(tmp, "replays"), VERIF_SEED=args.seed)
                c = subprocess.run([os.path.join(VERIF, "check"), prop, "--tier", args.tier, "--repo", dst],
                                   capture_output=True, text=True, env=env)
                viol = [ln for ln in c.stdout.splitlines() if ln.startswith("VIOLATION")]
                detail = [ln for ln in c.stdout.splitlines() if ln.startswith("  monitor=")]
                ok = c.returncode == 1 and viol
                import re

                total = sum(int(m) for ln in detail for m in re.findall(r"\((\d+) recorded\)", ln))
                total += sum(int(m) for m in re.findall(r"violations_not_recorded=(\d+)", c.stdout))
                print("%-55s %s %s  [%d violating cases, %d kinds] %s" % (
                    name, prop, "CAUGHT" if ok else "MISSED (exit %d)" % c.returncode, total, len(detail),
                    detail[0].strip()[:150] if detail else ""))
                rows.append((name, prop, ("caught (%d cases)" % total) if ok else "MISSED", (detail[0].strip()[:110] if detail else ""),
                             locals().get("tail", "") if args.with_tests else ""))
                if not ok:
                    failed.append("%s/%s" % (name, prop))
                    tailtxt = "\n".join(c.stdout.splitlines()[-4:])
                    print("    " + tailtxt.replace("\n", "\n    ")[:800])
        finally:
            shutil.rmtree(tmp, ignore_errors=True)
    print("selftest: %d missed" % len(failed))
    if args.merge_results:
        path = os.path.join(HERE, "RESULTS.md")
        lines = open(path).read().splitlines()
        head = [ln for ln in lines if not ln.startswith("| ") or ln.startswith("| seeded change") or ln.startswith("|---")]
        old_rows = {}
        for ln in lines:
            if ln.startswith("| ") and not ln.startswith("| seeded change"):
                cells = [c.strip() for c in ln.strip("|").split("|")]
                if len(cells) >= 5:
                    old_rows[(cells[0], cells[1])] = cells
        for name, prop, result, first, tests in rows:
            prev = old_rows.get((name, prop))
            old_rows[(name, prop)] = [name, prop, result, first.replace("|", "/"), tests.replace("|", "/") or (prev[4] if prev else "")]
        # drop rows of changes that were re-filed under other properties or removed
        present = {(n, p) for n, ps, _ in collect(None) for p in ps}
        old_rows = {k: v for k, v in old_rows.items() if k in present}
        missed = sum(1 for v in old_rows.values() if v[2] == "MISSED")
        with open(path, "w") as fp:
            for ln in head:
                if ln.startswith("|---"):
                    fp.write(ln + "\n")
                    for k in sorted(old_rows):
                        fp.write("| %s |\n" % " | ".join(old_rows[k]))
                elif re.match(r"^\d+ seeded changes x checks", ln):
                    fp.write("%d seeded changes x checks, %d missed.\n" % (len(old_rows), missed))
                else:
                    fp.write(ln + "\n")
    if args.write_results:
        with open(os.path.join(HERE, "RESULTS.md"), "w") as fp:
            fp.write("# Seeded breaks against the checks (tier %s, seed %s)\n\n" % (args.tier, args.seed))
            fp.write("Written by `selftest/run.py --write-results`: every patch is applied to a scratch copy of /repo, the named\n"
                     "check is run with `--repo <copy>`; *caught* = exit 1 with a VIOLATION line. `seeded/...` entries were written by\n"
                     "independent sub-agents that saw only the property text.\n\n")
            fp.write("| seeded change | check | result | first monitor that fired | repository tests with the change |\n|---|---|---|---|---|\n")
            for name, prop, result, first, tests in rows:
                fp.write("| %s | %s | %s | %s | %s |\n" % (name, prop, result, first.replace("|", "/"), tests.replace("|", "/")))
            fp.write("\n%d seeded changes x checks, %d missed.\n" % (len(rows), len(failed)))
    return 1 if failed else 0


if __name__ == "__main__":
    sys.exit(main())
